// Package absint is a small abstract interpreter over go/ssa used by the T-EOF rule: it
// evaluates parser code under the single assumption "the scanner is at end of input, so
// every token the parser sees is TokenTypeEOF" and reports loops that provably never exit
// under that assumption (every branch on a cycle is decided by the assumption and leads
// back into the cycle).  Everything that is not determined by the assumption is Unknown,
// and an Unknown branch keeps both successors feasible — so only definite spins are found.
package absint

import (
	"fmt"
	"go/constant"
	"go/token"
	"go/types"
	"sort"
	"strings"

	"golang.org/x/tools/go/ssa"

	"verifchecker/internal/engine"
)

type kind int

const (
	kUnset kind = iota
	kUnknown
	kInt // TokenType / small ints
	kBool
	kNil    // nil error / pointer
	kNonNil // definitely non-nil
	kFunc   // known function value (possibly closure with bindings)
	kTuple
	kToken // a Token struct whose TType is known
)

// Val is an abstract value.
type Val struct {
	K     kind
	I     int64
	B     bool
	Fn    *ssa.Function
	Binds []Val // closure bindings
	Elems []Val // tuple
}

var unknown = Val{K: kUnknown}

func (v Val) String() string {
	switch v.K {
	case kUnset:
		return "⊥"
	case kUnknown:
		return "?"
	case kInt:
		return fmt.Sprint(v.I)
	case kBool:
		return fmt.Sprint(v.B)
	case kNil:
		return "nil"
	case kNonNil:
		return "non-nil"
	case kFunc:
		return "func:" + engine.ShortName(v.Fn)
	case kTuple:
		var p []string
		for _, e := range v.Elems {
			p = append(p, e.String())
		}
		return "(" + strings.Join(p, ",") + ")"
	case kToken:
		return fmt.Sprintf("token(%d)", v.I)
	}
	return "?"
}

func eq(a, b Val) bool {
	if a.K != b.K {
		return false
	}
	switch a.K {
	case kInt, kToken:
		return a.I == b.I
	case kBool:
		return a.B == b.B
	case kFunc:
		if a.Fn != b.Fn || len(a.Binds) != len(b.Binds) {
			return false
		}
		for i := range a.Binds {
			if !eq(a.Binds[i], b.Binds[i]) {
				return false
			}
		}
		return true
	case kTuple:
		if len(a.Elems) != len(b.Elems) {
			return false
		}
		for i := range a.Elems {
			if !eq(a.Elems[i], b.Elems[i]) {
				return false
			}
		}
		return true
	}
	return true
}

func join(a, b Val) Val {
	if a.K == kUnset {
		return b
	}
	if b.K == kUnset {
		return a
	}
	if eq(a, b) {
		return a
	}
	if a.K == kTuple && b.K == kTuple && len(a.Elems) == len(b.Elems) {
		out := Val{K: kTuple, Elems: make([]Val, len(a.Elems))}
		for i := range a.Elems {
			out.Elems[i] = join(a.Elems[i], b.Elems[i])
		}
		return out
	}
	return unknown
}

// Spin is a loop proven not to terminate at end of input.
type Spin struct {
	Fn     *ssa.Function
	Header *ssa.BasicBlock
	Pos    token.Pos
	Chain  []string // call chain (outermost first) with the bindings that make it spin
}

// Config tells the interpreter how the parser state looks like.
type Config struct {
	// IsTokenField reports whether the struct field holds a parser token (currentToken /
	// previousToken): loads of it yield the EOF token.
	IsTokenField func(f *types.Var) bool
	// TTypeField reports whether the field is Token.TType.
	TTypeField func(f *types.Var) bool
	// ScanToken is the scanner primitive: returns (EOF token, nil).
	IsScanToken func(fn *ssa.Function) bool
	// Havoc: calling this function invalidates the EOF assumption for the caller frame
	// (RestoreState restores an earlier token).
	IsHavoc func(fn *ssa.Function) bool
	// Own reports whether the function body should be interpreted.
	Own     func(fn *ssa.Function) bool
	EOF     int64
	Resolve func(site ssa.CallInstruction, caller *ssa.Function) []*ssa.Function
}

// Interp holds memoised results.
type Interp struct {
	C     Config
	memo  map[string]*result
	Spins map[string]*Spin // keyed by fn+header
	Evals int
	stack []string
}

type result struct {
	ret   Val
	havoc bool
	busy  bool
}

func New(c Config) *Interp {
	return &Interp{C: c, memo: map[string]*result{}, Spins: map[string]*Spin{}}
}

func key(fn *ssa.Function, args []Val) string {
	var b strings.Builder
	fmt.Fprintf(&b, "%p", fn)
	for _, a := range args {
		b.WriteString("|" + a.String())
		if a.K == kFunc {
			for _, x := range a.Binds {
				b.WriteString("," + x.String())
			}
		}
	}
	return b.String()
}

// Eval interprets fn with the given argument values (Unknown for anything not tracked).
func (it *Interp) Eval(fn *ssa.Function, args []Val) (Val, bool) {
	return it.eval(fn, args, nil)
}

func (it *Interp) eval(fn *ssa.Function, args []Val, free []Val) (Val, bool) {
	if fn == nil || len(fn.Blocks) == 0 || len(it.stack) > 40 {
		return unknown, false
	}
	k := key(fn, append(append([]Val{}, args...), free...))
	if r, ok := it.memo[k]; ok {
		if r.busy {
			return unknown, false // recursion: result not determined
		}
		return r.ret, r.havoc
	}
	r := &result{busy: true}
	it.memo[k] = r
	it.Evals++
	desc := engine.ShortName(fn)
	var bd []string
	for i, a := range args {
		if a.K != kUnknown && a.K != kUnset && i < len(fn.Params) {
			bd = append(bd, fn.Params[i].Name()+"="+a.String())
		}
	}
	if len(bd) > 0 {
		desc += "[" + strings.Join(bd, ",") + "]"
	}
	it.stack = append(it.stack, desc)
	defer func() { it.stack = it.stack[:len(it.stack)-1] }()

	f := &frame{it: it, fn: fn, vals: map[ssa.Value]Val{}, feasible: map[[2]*ssa.BasicBlock]bool{}, reached: map[*ssa.BasicBlock]bool{}}
	for i, p := range fn.Params {
		if i < len(args) {
			f.vals[p] = args[i]
		} else {
			f.vals[p] = unknown
		}
	}
	for i, fv := range fn.FreeVars {
		if i < len(free) {
			f.vals[fv] = free[i]
		} else {
			f.vals[fv] = unknown
		}
	}
	f.run()
	r.busy = false
	r.ret = f.ret
	if r.ret.K == kUnset {
		r.ret = unknown
	}
	r.havoc = f.havoc
	if !f.havoc {
		f.findSpins()
	}
	return r.ret, r.havoc
}

type frame struct {
	it       *Interp
	fn       *ssa.Function
	vals     map[ssa.Value]Val
	feasible map[[2]*ssa.BasicBlock]bool
	reached  map[*ssa.BasicBlock]bool
	ret      Val
	havoc    bool
}

func (f *frame) get(v ssa.Value) Val {
	switch t := v.(type) {
	case *ssa.Const:
		return constVal(t)
	case *ssa.Function:
		return Val{K: kFunc, Fn: t}
	case *ssa.Global:
		return unknown
	}
	if x, ok := f.vals[v]; ok {
		return x
	}
	return Val{K: kUnset}
}

func constVal(c *ssa.Const) Val {
	if c.Value == nil {
		switch c.Type().Underlying().(type) {
		case *types.Interface, *types.Pointer, *types.Slice, *types.Map, *types.Signature, *types.Chan:
			return Val{K: kNil}
		}
		if b, ok := c.Type().Underlying().(*types.Basic); ok && b.Info()&types.IsInteger != 0 {
			return Val{K: kInt, I: 0}
		}
		return unknown
	}
	switch c.Value.Kind() {
	case constant.Bool:
		return Val{K: kBool, B: constant.BoolVal(c.Value)}
	case constant.Int:
		if n, ok := constant.Int64Val(c.Value); ok {
			return Val{K: kInt, I: n}
		}
	}
	return unknown
}

func (f *frame) set(v ssa.Value, x Val) bool {
	old := f.vals[v]
	n := join(old, x)
	if old.K == kUnknown {
		n = unknown
	}
	if eq(old, n) && old.K != kUnset {
		return false
	}
	f.vals[v] = n
	return true
}

// run: fixpoint over feasible blocks.
func (f *frame) run() {
	entry := f.fn.Blocks[0]
	work := []*ssa.BasicBlock{entry}
	f.reached[entry] = true
	iter := 0
	for len(work) > 0 && iter < 4000 {
		iter++
		b := work[0]
		work = work[1:]
		changed := f.execBlock(b)
		// successors
		succs := f.feasibleSuccs(b)
		for _, s := range succs {
			e := [2]*ssa.BasicBlock{b, s}
			newEdge := !f.feasible[e]
			f.feasible[e] = true
			if newEdge || changed || !f.reached[s] {
				f.reached[s] = true
				work = append(work, s)
			}
		}
	}
	if iter >= 4000 {
		f.havoc = true // did not converge: claim nothing
	}
}

func (f *frame) feasibleSuccs(b *ssa.BasicBlock) []*ssa.BasicBlock {
	if len(b.Instrs) == 0 {
		return b.Succs
	}
	if iff, ok := b.Instrs[len(b.Instrs)-1].(*ssa.If); ok {
		c := f.get(iff.Cond)
		if f.havoc {
			return b.Succs
		}
		if c.K == kBool {
			if c.B {
				return b.Succs[:1]
			}
			return b.Succs[1:2]
		}
	}
	return b.Succs
}

func (f *frame) execBlock(b *ssa.BasicBlock) bool {
	changed := false
	for _, in := range b.Instrs {
		switch t := in.(type) {
		case *ssa.Phi:
			v := Val{K: kUnset}
			for i, e := range t.Edges {
				if f.feasible[[2]*ssa.BasicBlock{b.Preds[i], b}] {
					v = join(v, f.get(e))
				}
			}
			if v.K != kUnset && f.set(t, v) {
				changed = true
			}
		case *ssa.Return:
			var rv Val
			switch len(t.Results) {
			case 0:
				rv = Val{K: kTuple}
			case 1:
				rv = f.get(t.Results[0])
			default:
				rv = Val{K: kTuple}
				for _, r := range t.Results {
					rv.Elems = append(rv.Elems, f.get(r))
				}
			}
			if rv.K == kUnset {
				rv = unknown
			}
			f.ret = join(f.ret, rv)
		case ssa.Value:
			if f.set(t, f.evalInstr(t)) {
				changed = true
			}
		case *ssa.Store:
			// stores to local cells: tracked through loads (see UnOp)
		}
	}
	return changed
}

func (f *frame) evalInstr(v ssa.Value) Val {
	it := f.it
	switch t := v.(type) {
	case *ssa.BinOp:
		return binop(t.Op, f.get(t.X), f.get(t.Y))
	case *ssa.UnOp:
		switch t.Op {
		case token.NOT:
			x := f.get(t.X)
			if x.K == kBool {
				return Val{K: kBool, B: !x.B}
			}
			return unknown
		case token.MUL:
			return f.load(t.X)
		}
		return unknown
	case *ssa.Field:
		x := f.get(t.X)
		if x.K == kToken {
			if fv := structField(t.X.Type(), t.Field); fv != nil && it.C.TTypeField(fv) {
				return Val{K: kInt, I: x.I}
			}
		}
		return unknown
	case *ssa.Extract:
		x := f.get(t.Tuple)
		if x.K == kTuple && t.Index < len(x.Elems) {
			return x.Elems[t.Index]
		}
		if x.K == kUnset {
			return x
		}
		return unknown
	case *ssa.ChangeType:
		return f.get(t.X)
	case *ssa.Convert:
		x := f.get(t.X)
		if x.K == kInt {
			return x
		}
		return unknown
	case *ssa.MakeInterface:
		x := f.get(t.X)
		if x.K == kNil {
			return unknown // typed nil in interface is non-nil; stay unknown
		}
		if _, isPtr := t.X.Type().Underlying().(*types.Pointer); isPtr && x.K == kNonNil {
			return Val{K: kNonNil}
		}
		return unknown
	case *ssa.MakeClosure:
		out := Val{K: kFunc, Fn: t.Fn.(*ssa.Function)}
		for _, b := range t.Bindings {
			out.Binds = append(out.Binds, f.get(b))
		}
		return out
	case *ssa.Alloc:
		return Val{K: kNonNil}
	case *ssa.Call:
		return f.call(t)
	case *ssa.TypeAssert, *ssa.Lookup, *ssa.Index, *ssa.Slice, *ssa.MakeSlice, *ssa.MakeMap, *ssa.FieldAddr, *ssa.IndexAddr:
		if _, ok := v.(*ssa.FieldAddr); ok {
			return Val{K: kNonNil}
		}
		return unknown
	}
	return unknown
}

func structField(t types.Type, i int) *types.Var {
	if p, ok := t.Underlying().(*types.Pointer); ok {
		t = p.Elem()
	}
	st, ok := t.Underlying().(*types.Struct)
	if !ok || i >= st.NumFields() {
		return nil
	}
	return st.Field(i)
}

// load evaluates *addr.
func (f *frame) load(addr ssa.Value) Val {
	it := f.it
	switch a := addr.(type) {
	case *ssa.FieldAddr:
		fv := structField(a.X.Type(), a.Field)
		if fv == nil {
			return unknown
		}
		if !f.havoc && it.C.IsTokenField(fv) {
			return Val{K: kToken, I: it.C.EOF}
		}
		if it.C.TTypeField(fv) {
			// &tok.TType where tok is the address of a token field
			if inner, ok := a.X.(*ssa.FieldAddr); ok {
				if iv := structField(inner.X.Type(), inner.Field); iv != nil && it.C.IsTokenField(iv) && !f.havoc {
					return Val{K: kInt, I: it.C.EOF}
				}
			}
			// local copy of a token
			if al, ok := a.X.(*ssa.Alloc); ok {
				x := f.cell(al)
				if x.K == kToken {
					return Val{K: kInt, I: x.I}
				}
			}
		}
		return unknown
	case *ssa.Alloc:
		return f.cell(a)
	case *ssa.FreeVar:
		// captured cell: its content is what the binding says if it is a plain value
		x := f.get(a)
		return x
	}
	return unknown
}

// cell: the value of a local variable cell = join of all stores to it in this function
// (flow-insensitive, hence only precise for single-assignment cells).
func (f *frame) cell(al *ssa.Alloc) Val {
	out := Val{K: kUnset}
	refs := al.Referrers()
	if refs == nil {
		return unknown
	}
	n := 0
	for _, r := range *refs {
		switch t := r.(type) {
		case *ssa.Store:
			if t.Addr == ssa.Value(al) {
				n++
				out = join(out, f.get(t.Val))
			}
		case *ssa.MakeClosure, *ssa.Call:
			return unknown // escapes
		}
	}
	if n == 0 || out.K == kUnset {
		return unknown
	}
	if n > 1 {
		// several assignments: only keep if all agree (join did that)
	}
	return out
}

func binop(op token.Token, x, y Val) Val {
	if x.K == kUnset || y.K == kUnset {
		if x.K == kUnset {
			return x
		}
		return y
	}
	switch op {
	case token.EQL, token.NEQ:
		res, ok := false, false
		switch {
		case x.K == kInt && y.K == kInt:
			res, ok = x.I == y.I, true
		case x.K == kBool && y.K == kBool:
			res, ok = x.B == y.B, true
		case x.K == kNil && y.K == kNil:
			res, ok = true, true
		case (x.K == kNil && y.K == kNonNil) || (x.K == kNonNil && y.K == kNil):
			res, ok = false, true
		}
		if !ok {
			return unknown
		}
		if op == token.NEQ {
			res = !res
		}
		return Val{K: kBool, B: res}
	case token.LSS, token.LEQ, token.GTR, token.GEQ:
		if x.K == kInt && y.K == kInt {
			var r bool
			switch op {
			case token.LSS:
				r = x.I < y.I
			case token.LEQ:
				r = x.I <= y.I
			case token.GTR:
				r = x.I > y.I
			default:
				r = x.I >= y.I
			}
			return Val{K: kBool, B: r}
		}
	case token.LAND, token.LOR:
	}
	return unknown
}

func (f *frame) call(c *ssa.Call) Val {
	it := f.it
	cc := &c.Call
	var callees []*ssa.Function
	var closure *Val
	switch v := cc.Value.(type) {
	case *ssa.Function:
		callees = []*ssa.Function{v}
	case *ssa.MakeClosure:
		x := f.get(v)
		if x.K == kFunc {
			closure = &x
			callees = []*ssa.Function{x.Fn}
		}
	case *ssa.Builtin:
		return unknown
	default:
		if cc.IsInvoke() {
			if it.C.Resolve != nil {
				callees = it.C.Resolve(c, f.fn)
			}
			if len(callees) != 1 {
				return f.unknownResult(c)
			}
		} else {
			x := f.get(cc.Value)
			if x.K == kUnset {
				return x
			}
			if x.K != kFunc {
				return f.unknownResult(c)
			}
			closure = &x
			callees = []*ssa.Function{x.Fn}
		}
	}
	if len(callees) != 1 {
		return f.unknownResult(c)
	}
	callee := callees[0]
	if it.C.IsScanToken(callee) {
		if f.havoc {
			return unknown
		}
		return Val{K: kTuple, Elems: []Val{{K: kToken, I: it.C.EOF}, {K: kNil}}}
	}
	if it.C.IsHavoc(callee) {
		f.havoc = true
		return unknown
	}
	if !it.C.Own(callee) {
		return f.unknownResult(c)
	}
	var args []Val
	if cc.IsInvoke() {
		args = append(args, unknown)
	}
	for _, a := range cc.Args {
		x := f.get(a)
		if x.K == kUnset {
			return x // operands not ready yet
		}
		args = append(args, x)
	}
	var free []Val
	if closure != nil {
		free = closure.Binds
	}
	ret, havoc := it.eval(callee, args, free)
	if havoc {
		f.havoc = true
		return unknown
	}
	return ret
}

func (f *frame) unknownResult(c *ssa.Call) Val {
	if tup, ok := c.Type().(*types.Tuple); ok {
		out := Val{K: kTuple}
		for i := 0; i < tup.Len(); i++ {
			out.Elems = append(out.Elems, unknown)
		}
		return out
	}
	return unknown
}

// findSpins: strongly connected components of the feasible graph that have no feasible exit.
func (f *frame) findSpins() {
	// Tarjan over reached blocks with feasible edges
	index := map[*ssa.BasicBlock]int{}
	low := map[*ssa.BasicBlock]int{}
	on := map[*ssa.BasicBlock]bool{}
	var stack []*ssa.BasicBlock
	idx := 0
	var sccs [][]*ssa.BasicBlock
	succ := func(b *ssa.BasicBlock) []*ssa.BasicBlock {
		var out []*ssa.BasicBlock
		for _, s := range b.Succs {
			if f.feasible[[2]*ssa.BasicBlock{b, s}] {
				out = append(out, s)
			}
		}
		return out
	}
	var strong func(v *ssa.BasicBlock)
	strong = func(v *ssa.BasicBlock) {
		index[v] = idx
		low[v] = idx
		idx++
		stack = append(stack, v)
		on[v] = true
		for _, w := range succ(v) {
			if _, ok := index[w]; !ok {
				strong(w)
				if low[w] < low[v] {
					low[v] = low[w]
				}
			} else if on[w] && index[w] < low[v] {
				low[v] = index[w]
			}
		}
		if low[v] == index[v] {
			var comp []*ssa.BasicBlock
			for {
				w := stack[len(stack)-1]
				stack = stack[:len(stack)-1]
				on[w] = false
				comp = append(comp, w)
				if w == v {
					break
				}
			}
			sccs = append(sccs, comp)
		}
	}
	var blocks []*ssa.BasicBlock
	for b := range f.reached {
		blocks = append(blocks, b)
	}
	sort.Slice(blocks, func(i, j int) bool { return blocks[i].Index < blocks[j].Index })
	for _, b := range blocks {
		if _, ok := index[b]; !ok {
			strong(b)
		}
	}
	for _, comp := range sccs {
		in := map[*ssa.BasicBlock]bool{}
		for _, b := range comp {
			in[b] = true
		}
		cyclic := len(comp) > 1
		if !cyclic {
			for _, s := range succ(comp[0]) {
				if s == comp[0] {
					cyclic = true
				}
			}
		}
		if !cyclic {
			continue
		}
		exit := false
		for _, b := range comp {
			for _, s := range succ(b) {
				if !in[s] {
					exit = true
				}
			}
			// a block that can panic/return inside the component is an exit too
			if len(b.Instrs) > 0 {
				switch b.Instrs[len(b.Instrs)-1].(type) {
				case *ssa.Return, *ssa.Panic:
					exit = true
				}
			}
		}
		if exit {
			continue
		}
		// header = block with smallest index
		h := comp[0]
		for _, b := range comp {
			if b.Index < h.Index {
				h = b
			}
		}
		pos := token.NoPos
		for _, b := range comp {
			for _, in := range b.Instrs {
				if in.Pos().IsValid() && (pos == token.NoPos || in.Pos() < pos) {
					pos = in.Pos()
				}
			}
		}
		k := fmt.Sprintf("%p/%d", f.fn, h.Index)
		if _, ok := f.it.Spins[k]; !ok {
			f.it.Spins[k] = &Spin{Fn: f.fn, Header: h, Pos: pos, Chain: append([]string{}, f.it.stack...)}
		}
	}
}
