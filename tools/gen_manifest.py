#!/usr/bin/env python3
"""Regenerates /verif/MANIFEST.json from the table below (single source of truth)."""
import json, os, subprocess
V = os.path.dirname(os.path.dirname(os.path.abspath(__file__)))
ids = [json.loads(l)["id"] for l in open(os.path.join(V, "properties.jsonl"))]
impl = subprocess.run([os.path.join(V, "bin/verifcheck"), "-list"], capture_output=True, text=True).stdout.split()

# per property: (level text, level note, technique, design section)
T = {
 "C05": ("Static analysis of /repo's SSA: the safety half (no EXPUNGE can be produced while answering FETCH/STORE/SEARCH) is decided for every path: constant propagation of permitExpunge through every wrapper reachable from the three handlers and the dispatch path, the hold-back logic of popResponders evaluated under permitExpunge=false, who-may-call Responder.handle, [EXPUNGEISSUED] dominance, and must-pass-through of a permitting flush in the commands that have to announce removals. Structural necessary conditions, exhaustive over the source; not a behavioural model.",
         "Trusts go/types + go/ssa, the VTA call graph, and that response.Merge keeps order. Does not decide what the snapshot mutators compute.",
         "constant-argument propagation over the call graph + dominator/must-pass-through rules on SSA", "DESIGN.md 4/C05"),

 "C06": ("Static analysis: update.Done is called exactly once on every path of user.apply with the error that is returned and nowhere else; the update loop continues after an error; the type switch covers every imap.Update implementer; every SQL statement below user.apply is parsed by SQLite against the migrated schema and arity-checked; every add-to-mailbox on an update path is justified by a membership query on all paths (idempotent re-delivery) or a fresh id; recovery-mailbox comparison precedes writes. Structural necessary conditions; 'produces exactly the change it describes' is not decided.",
         "Trusts go/ssa, the VTA call graph, SQLite's parser; value-level effects of each update kind are not modelled.",
         "must-pass-through/exactly-once path rule + exhaustiveness over go/types method sets + embedded-SQL validation + value-flow justification of inserts", "DESIGN.md 4/C06"),
 "C08": ("Static analysis of the embedded SQL: every statement site (145 evaluations incl. migrations, parameters bound per call site) is extracted symbolically, instantiated and parsed by SQLite against the schema obtained by executing only the migrations' DDL in order; placeholder counts and bound-argument lengths are compared as polynomials over len() atoms (catches mis-bound batches that go-sqlite3 silently accepts); chunk discipline and the variable limit; Scan arity vs result columns; *sql.Tx typestate in wrapTx (exactly one Commit/Rollback, Commit only on nil, rollback on panic, no escape); tracer sibling agreement; rows.Err typestate. Decides that each statement is well-formed and binds what it declares for every batch size; it does not decide result equivalence with a relational model.",
         "Trusts go/ssa, SQLite 3.45 parser from go-sqlite3, the assumption that flag sets hold <= 16 flags, and that access paths are not reassigned between the query construction and its use.",
         "symbolic extraction of embedded SQL + polynomial arity comparison + SQLite-as-parser + typestate rules on SSA", "DESIGN.md 4/C08"),

 "C17": ("Static analysis: every transaction call that grows a limited quantity (the four mailbox-creating and two message-inserting db.Transaction methods; 10 sites) is dominated, in a function holding the same transaction (followed up to 3 caller frames through the parameter that carries it), by the matching limits.IMAP.Check* whose count argument is read from that transaction; for inserts in a loop the check is inside the loop or receives a len(batch) term; in the inserting function the check counts the mailbox inserted into and is told len(inserted list) (or 1); limit errors of every Check* call are returned from the transaction closure (rollback); no write transaction that can reach a limited insert is opened inside a loop (a refused multi-message operation cannot have committed an earlier part). Exemptions (table in evidence): the recovery-mailbox insert of a refused APPEND and newUser's one-time recovery mailbox. Arithmetic exactness of the count expression (off-by-one), remote side effects made before a refusal, and 'operations that fit are still accepted' are not decided.",
         "Trusts go/ssa dominators and the rule table of growth methods (a new db.Transaction method that inserts rows must be added to the table; R17.1's site count guards against the table matching nothing).",
         "dominator-based check-before-insert rule with transaction identity, loop multiplicity and argument agreement on SSA + error-propagation rule", "DESIGN.md 4/C17"),

 "C13": ("Static analysis of the clauses of byte-exactness that have a shape: (1) every format string that frames an IMAP literal ({n}CRLF bytes; 4 sites) is given len(E) and the same E (same receiver field, same reaching definition); (2) every slice expression in internal/response (the partial <o.n> slicing) has both bounds proved <= len of the sliced bytes from the dominating branch conditions, by linear-inequality entailment (Fourier-Motzkin, case split on phis) - a bound between len and cap would silently return the bytes that follow the section; (3) Header.Fields and Header.FieldsNot decide each keyed entry by one lookup of its mapKey in a strings.ToLower-built set with opposite polarity, and mapKey is only ever written with a strings.ToLower result. The equalities between sections (BODY[] = stored literal + ID header, HEADER+TEXT = BODY[], BODY[n.m] offsets, RFC822.SIZE) quantify over parsed offsets and are NOT decided; neither is low<=high of the partial slice (needs count >= 0).",
         "Trusts go/ssa, the reaching-definition versioning of receiver fields (a call that is handed the receiver pointer invalidates it), rational relaxation of integer constraints (sound for refutation).",
         "format-operand agreement rule + relational (linear-inequality) bounds analysis over dominating conditions + polarity/normalisation sibling rule on SSA", "DESIGN.md 4/C13"),

 "C15": ("Static analysis: (1) key tables agree - buildSearchOp's type switch has a case for each of the concrete command.SearchKey types and dispatches to that key's builder; the SEARCH parser constructs each type, under the keyword constant that is the type's lower-cased name; (2) declared needs - for each of the 37 builders the searchData fields its closure reads are enabled by the options it passes (field->flag map derived from buildSearchData, flag sets derived from the options' apply methods), options enable what they depend on, and composite builders merge every child on every success path; (3) the parallel worker writes result[i] only and Search returns the filtered index-ordered slice; UID SEARCH maps through .UID, SEARCH through .Seq; (4) the boolean function of every loop-free key closure (34 keys: flags, UN-flags, NEW/OLD, KEYWORD/UNKEYWORD, NOT, OR, header keys, LARGER/SMALLER, date keys) is computed by case analysis over its atoms and compared with the RFC 3501 table; UID/sequence-set closures test the right number space. The conjunction over a key list, substring/charset semantics, date arithmetic and the view used are not decided.",
         "Trusts go/ssa; the specification table of R15.4 (RFC 3501 6.4.4) is part of the checker; atoms are canonicalised structurally (operand roles), errors of calls inside closures are assumed nil.",
         "exhaustiveness/table-agreement rules + derived field/flag dependency rule + truth-table evaluation of closures by case analysis on SSA", "DESIGN.md 4/C15"),

 "C16": ("Static analysis: (1) the number parser rejects, on every accumulation step, values above a constant <= 2^32-1, and every conversion to the 32-bit SeqID/UID types in internal/state has a bounded operand, so no message-set number can be truncated or wrapped onto another message; (2) every consumer of resolved sequence intervals checks both ends against the view before use (per iteration, dominating the use, or in a universal error-returning check loop); (3) no UID/SeqID value or difference is reinterpreted in a narrower or signed 32-bit type; (4) loops over a set's intervals are left only by exhaustion or return (result independent of the order in which the set was written). The set algebra itself (range normalisation, '*') is not decided.",
         "Trusts go/ssa; rule tables of view-bound check functions are derived structurally (SeqID parameter compared with len(list.msg)).",
         "dominator-based bound-check rules + conversion/type-width lint over SSA + loop-exit shape rule", "DESIGN.md 4/C16"),

 "C04": ("Static analysis: the DDL templates extracted from the source give UID and mailbox-id columns INTEGER PRIMARY KEY AUTOINCREMENT (checked on the tables SQLite builds); no run-time statement assigns/recycles UIDs or writes sqlite_sequence; every UIDNEXT announcement originates (inter-procedural value-flow, call-site sensitive through the generic transaction wrappers) from db.GetMailboxUID whose statement reads the persisted counter; every UIDVALIDITY written to the database originates from UIDValidityGenerator.Generate(); the epoch generator's CAS is guarded by new > last and lastUID is only touched atomically; APPENDUID/COPYUID UIDs originate from the rows the insert returned. Monotonicity across restarts depends on the wall clock and is not decided.",
         "Trusts go/ssa, the value-flow walk (fields of returned rows are attributed to the query that returned them), SQLite's AUTOINCREMENT semantics.",
         "inter-procedural value-origin (T-SOURCE) analysis on SSA + schema/statement checks with SQLite", "DESIGN.md 4/C04"),

 "C11": ("Static analysis: (1) abstract interpretation of the parser's SSA under the assumption 'scanner at end of input' (only Scanner.ScanToken is modelled; token predicates, Check/Matches/Consume and wrappers are interpreted with the predicate passed at each call site) proves that no loop of rfcparser / imap/command has a cycle forced to continue at EOF (no spin / unbounded growth on a truncated stream); (2) every call-graph cycle over client input is cut by a depth guard or has a compiler-derived stack bound below the fatal 1 GB limit; (3) allocations sized by a parsed number are dominated by upper and lower bounds; (4) the reader resynchronises after a parse error, errors are answered BAD with the line's tag and counted against a limit; (5) a tagged response travelling as error is sent by some caller. Memory growth proportional to an unterminated line and the exactly-one-completion count for every handler are not decided.",
         "Trusts go/ssa, the abstract interpreter (unknown values keep both branches, so only definite spins are reported), compiler frame sizes from go build -gcflags=-S, and the grammar-derived bytes-per-level table printed in evidence.",
         "abstract interpretation (conditional constant propagation over a token-state) + call-graph SCC/depth-guard analysis + dominator bounds", "DESIGN.md 4/C11"),
 "C12": ("Static analysis of the crash/termination clauses: T-EOF abstract interpretation of the rfc5322 parser (no loop spins at end of input), and T-REC over rfc5322/rfc822/imap structure code: the comment recursion is depth-guarded, the MIME-tree recursions are bounded below the fatal stack limit by (compiler frame size) x (30 MiB literal cap / 29 bytes per nesting level); and of the well-formedness clause: everything written to the parenthesised-list writer is a constant, a strconv.Quote result or a formatted number (a raw string only behind a predicate that rejects both double quote and backslash), and every list opened is closed with finish on every successful path. Absence of index panics, the exact quoting rules of RFC 3501 (strconv.Quote is trusted), field order/count and equality with the MIME tree are not decided by these rules.",
         "Trusts go/ssa, compiler frame sizes, the 29-bytes-per-level justification printed in evidence.",
         "abstract interpretation at EOF + call-graph SCC stack-bound analysis", "DESIGN.md 4/C12"),

 "C01": ("Static analysis of the structural half of 'announced view = answering view': who-may-write rules on every field of the per-session snapshot and who-may-call rules on its mutators (only the three responders), in-place flag changes are announced in the same response, each Responder.handle returns a response from the matching constructor on every mutating path except the three enumerated silencers, every produced response is forwarded (flushResponses/PushResponder/flush), every selected-state command is followed by a flush before its tagged response, FlagSets stored in a snapshot are private copies (no aliasing between messages/sessions), and no deferred call captures a stale response buffer. The list mutators' own arithmetic (sorted msg, idx consistency), response.Merge and sequence-number values are trusted, not decided.",
         "Trusts go/ssa, the VTA call graph, the bodies of snapMsgList.insert/insertOutOfOrder/remove and response.Merge.",
         "who-may-write / who-may-call rules + must-pass-through on SSA + value-origin (ownership) analysis", "DESIGN.md 4/C01"),
 "C02": ("Static analysis of necessary conditions of convergence: no returned state update is dropped, the four commit wrappers broadcast the closure's updates on every success path, no Update.Filter decides on snapshot membership without also consulting pending (queued) additions, the update queue is accessed under its lock and is FIFO by construction, the strict ascending insert is used only for the originating state, snapshot flag sets are private copies. Equality of the converged view with the authoritative mailbox for every history is not decided.",
         "Trusts go/ssa, the lock-region analysis (must-hold dataflow per function), VTA call graph.",
         "T-NODROP use analysis + must-pass-through + lock-region (must-hold) dataflow + structural filter rule", "DESIGN.md 4/C02"),

 "C03": ("Static analysis of the batching, transaction-shape and flag-case clauses: every SQL statement reachable from the message commands is valid and binds exactly its placeholders for every batch size (polynomial arity, chunk discipline); each command method runs at most one mutating transaction per path; no error of a mutating transaction call is swallowed; flag lookups use lower-case keys and original-spelling flag strings are never compared case-sensitively; a flag change is announced only after the matching index write; a flag update that came from another mailbox always restores the snapshot's own \\Deleted before the snapshot write (\\Deleted is per mailbox). Equality with a reference model, flag semantics per command and message bytes are not decided.",
         "Trusts go/ssa, SQLite's parser, VTA call graph.",
         "embedded-SQL arity analysis + path-count rule + error-propagation (T-NODROP) + taint-style flag-case lint + dominance", "DESIGN.md 4/C03"),

 "C19": ("Static analysis of necessary conditions for race/deadlock/leak freedom: (1) confinement - a *state.State that leaves user.states (lookup, range, callback parameter) is used only through methods that touch no mutable unsynchronised State field (mutability and the touched fields are derived), except under the own-state test; (2) guarded-by - 14 shared fields are accessed only with their lock held in the function, the enclosing closure's runner, or every caller (must-hold lock dataflow); (3) lock order - the graph over locks and WaitGroup waits (edges from held regions to everything acquirable in callees, wait(W) to what Done-functions need) is acyclic; (4) every WaitGroup.Add is followed on all paths by a deferred Done or the spawn of the function that defers it; (5) variables accessed via sync/atomic are accessed only so; (7) the non-discarding QueuedChannel.Close is used only where a reader outlives it; (8) every blocking channel operation in goroutines joined by a Close (quit channel + WaitGroup) also selects on the quit channel; (9) unbuffered chan struct{} signal fields are only ever closed, never sent on. One known finding (removeState reads other sessions' snapshots). Absence of races on fields outside the tables, liveness under slow clients, and the per-goroutine feasibility of lock-order edges are not decided.",
         "Trusts go/ssa, the VTA call graph (over-approximate: may add lock-order edges, never hides one through static calls), the guarded-by table and the two 'not judged' lock rows printed in evidence; locks are identified by struct field (instances of one struct are merged, self edges not judged).",
         "confinement/escape rule + must-hold lockset dataflow + lock-order graph over the call graph + pairing/typestate rules on SSA", "DESIGN.md 4/C19"),

 "C20": ("Static analysis: every failed AppendRegular path in Mailbox.Append reaches the recovery transaction except the size-limit edge; AppendRegular has no other caller and the APPENDUID OK is built on the nil edge from Append's own UID; the recovery mailbox name is refused (case-insensitively) before any database access in Create/Delete/Rename/AppendOnlyMailbox/Copy/Move; every removal from the recovery mailbox erases the same ids from the dedup map; a hashing failure never aborts the recovery and the dedup check precedes the insert. 'Listed exactly while non-empty' and content-hash equality are not decided.",
         "Trusts go/ssa and the VTA call graph.",
         "must-pass-through + who-may-call + dominance guards + pairing rule on SSA", "DESIGN.md 4/C20"),

 "C18": ("Static analysis: every use of the authenticated state in the session package is dominated (inter-procedurally, up to 4 frames, closures included) by s.state != nil or is reached only through a nil-safe getter's channel; Session.state is written only in handleLogin from a successful Backend.GetState; State.user and the state's user binding are written once; getUserID returns an id only on the true edge of connector.Authorize, waits for the jail first, and the maxLoginAttempts branch arms WaitGroup + loginJailTime timer whose callback releases it and resets the counter; CLOSE/UNSELECT always drop the snapshot. The jail duration itself (time) is not decided.",
         "Trusts go/ssa, static call resolution inside internal/session.",
         "inter-procedural dominance (guarded-by) + who-may-write + must-pass-through", "DESIGN.md 4/C18"),

 "C14": ("Static analysis: regular expressions are built only from constants and QuoteMeta'd parts (no raw delimiter/name); INBOX and recovery-mailbox guards dominate the namespace writes; mailboxes_v2.name/remote_id are UNIQUE in the schema SQLite builds from the migrations; every mailbox-name argument handed to the state API originates from decodeMailboxName (incl. the LIST/LSUB reference); Rename does not use non-anchored substring replacement and getMatches always matches a mailbox together with its superiors. Correctness of % / * matching, implicit-parent bookkeeping and the subscription model are not decided.",
         "Trusts go/ssa, SQLite schema introspection, value-origin walk.",
         "value-origin (T-SOURCE) + dominance guards + schema introspection + structural shape rules", "DESIGN.md 4/C14"),

 "C07": ("Static analysis of the ordering/typestate conditions durability rests on: every path that inserts message rows also writes the literal inside the same transaction closure; cache files are deleted only outside transactions and only after the row-deleting transaction committed / after the creating transaction failed / for the set difference with the database; both start-up clean-ups dominate newUser's success return and no run-time query is truncated by LIMIT n>1; *sql.Tx typestate (exactly one Commit/Rollback, Commit only on nil, rollback on panic, no escape); errors of literal writes are propagated. Atomicity of the file write itself (no temp+rename/fsync) and WAL durability settings are runtime matters and are not decided.",
         "Trusts go/ssa, the VTA call graph, SQLite for statement extraction.",
         "must-pass-through + dominance-justified effects + typestate on SSA", "DESIGN.md 4/C07"),

 "C09": ("Static analysis of the structural clauses of the store: calls into the wrapped store are serialised by the per-id RWMutex in the right mode with deferred release; ids given to the unlocked SetUnchecked are freshly generated (value-origin analysis through request struct fields); pooled lock entries are published with counter 1, the counter is atomic and entryTable is accessed under its mutex; errors of every integrity-relevant read/write and of block authentication are propagated; the raw store is not used outside the package except the start-up scan; Set opens with O_CREATE|O_TRUNC. Byte-exact round trip, corruption-detection strength and listing are not decided.",
         "Trusts go/ssa, lock-region analysis, value-origin walk.",
         "lock/typestate pairing + value-origin (T-SOURCE) + error-propagation (T-NODROP) + constant-flag check", "DESIGN.md 4/C09"),

 "C10": ("Static analysis of the case-folding, exhaustiveness, chunking and number-range clauses: every keyword comparison / table lookup in imap/command compares lower-cased text (value-origin analysis through parameters and struct fields) with a lower-case constant, the case-sensitive ConsumeBytes is never used for letters; every Builder is registered, registry keys are lower-case, every payload type is dispatched by the session and the UID table agrees with handleUID; the scanner/collector never use a bare Read; the number bound is exactly 2^32-1. That the parsed value equals the written command (no argument dropped/reordered) is not decided.",
         "Trusts go/ssa, go/types method sets, the value-origin walk.",
         "value-origin (taint-style) case-folding analysis + exhaustiveness over go/types + sibling agreement", "DESIGN.md 4/C10"),
}
NA_REASON = {}
checks = []
# clauses added after the blind second round of seeded changes (DESIGN.md 9.7); appended to the level text
EXTRA = {
 "C02": " Also: no responder is lost - every iteration of the loop that re-partitions State.res appends the responder to the popped or to the remaining list.",
 "C03": " Also: no append writes into a chunk view returned by xslices.Chunk (aliasing across the statement batches).",
 "C06": " Also: the internal-ID header is inserted into a literal at most once (no SetHeaderValue on the result of an earlier one), so a re-delivered identical MessageUpdated compares equal to what is stored.",
 "C07": " Also: the error of every read made through the transaction of a write closure is returned unless it is explicitly classified as not-found (two accepted idioms listed in evidence): a failed read does not let the transaction commit a partial update.",
 "C08": " Also: no append writes into a chunk view returned by xslices.Chunk.",
 "C09": " Also: the decompressor's error in onDiskStore.Get reaches a nil-error return only on the errors.Is(err, io.EOF) edge (a file truncated at a block boundary is an error, never a prefix).",
 "C10": " Also: Parser.EnterRecursion is undone by LeaveRecursion on every path, error returns included (the parser lives as long as the connection).",
 "C11": " Also: Parser.EnterRecursion is undone by LeaveRecursion on every path.",
 "C12": " Also: EnterRecursion/LeaveRecursion pairing; a MIME Section slices the message only within its own [start,end) window, with both bounds read from its offset fields (containment by construction).",
 "C13": " Also: a Section slices only its own window; the ID header is inserted at most once; fetchBodySection serves MIME / HEADER / TEXT / HEADER.FIELDS[.NOT] / no keyword from the part named by RFC 3501 (keyword table, FieldsNot exactly on the Negate edge, MIME never through the embedded-message handling).",
 "C14": " Also: the loops of State.Create/Rename over listSuperiors(name) examine every superior (no break), so a missing ancestor above an existing one is re-created.",
 "C15": " Also: the loops of the search closures over resolved UID / sequence intervals are left only by exhaustion or return (sets are accepted in any order).",
 "C17": " Also: every connector call that makes the remote side grow is dominated by the limit check for the whole batch, standing before any loop (a refused command has not touched the remote).",
 "C18": " Also: every return of handleLogin is dominated by Backend.GetState (or is the already-authenticated refusal): no login attempt bypasses the jail.",
 "C19": " Also: (10) leaving the response-forwarding loop of Session.serve before the handler closed its channel starts a goroutine that plainly ranges over the channel until it is closed.",
 "C20": " Also: the dedup hash covers every leaf body (each nil return of the hash walk for a leaf is preceded by hashBody).",
}

EXTRA3 = {
 "C01": " Also: an EXISTS responder is released only while no earlier one is held back (announce in UID order); canSkip is never true for an expunge update.",
 "C02": " Also: snapshot.hasMessage is consulted only by the tabled callers (a session never decides what to announce from what its snapshot happens to hold).",
 "C03": " Also: State-level Set of the \\Deleted flag goes through SetMailboxMessagesDeletedFlag.",
 "C05": " Also: every queued expunge counts (no expunge responder is dropped or merged); on the *expunge edge of popResponders every path records the message id in the skip set.",
 "C06": " Also: a held-back EXPUNGE always records its message id, so the EXISTS of a connector re-add cannot overtake it.",
 "C07": " Also: DeleteUnchecked of the store is only called with ids created in the same function (fresh ids) or listed as orphans; the named transaction function's error decides commit.",
 "C08": " Also: every pooled connection has foreign keys on (DSN _fk=1); INSERT OR IGNORE / OR REPLACE statements name exactly the columns of one uniqueness constraint, so a swallowed conflict loses nothing.",
 "C09": " Also: every hash.Hash.Sum call is dominated by a Write on the same hasher (Sum's argument is a prefix, not input): the store key really depends on the whole passphrase; Set/Get/Delete name an entry's file by the same expression filepath.Join(path, id.String()) (full id, also through a path helper) and List parses names back with InternalMessageIDFromString; a Delete over a list of ids cannot return nil after leaving its loop early.",
 "C10": " Also: no branch on the value of an nDIGIT date/time/zone field leads to an error return in imap/command (RFC 3501 puts no range on them); a rejection that depends on the text of a flag atom is confined to the matched-backslash edge (flag-keyword = atom).",
 "C11": " Also: ParseNumber/ParseNumberN reject a value above 2^32-1 inside the accumulation loop, on every digit (a check after the loop sees an accumulator that already wrapped).",
 "C13": " Also: the MIME splitter returns a part from the position at which the scan for it started (read once, outside the loop that skips false delimiter matches) and records that same position as the part's offset.",
 "C14": " Also: listInferiors selects a name only through listSuperiors membership or the prefix parent+delimiter (no looser substring/suffix test).",
 "C15": " Also: the mapper from a matching message to the reported number returns the UID exactly when contexts.IsUID(ctx) is true and the sequence number otherwise (reaching definitions per branch outcome; helper and variable forms).",
 "C16": " Also: getMessagesInRange dispatches to the UID lookup exactly on the IsUID edge; every nil-error return of snapshot.getMessagesInRange is dominated by the interval resolution that validates each member (no fast path answers OK for a set with an invalid member); ParseNumber bounds the value on every digit; a client's 0 never becomes a sequence number (ParseNZNumber proved >= 1, SeqNum conversions take its result); every SeqInterval/UIDInterval is built with begin <= end proved on every path (reversed and *-anchored ranges); getMessagesInUIDRange has no error of its own (missing UIDs are skipped).",
 "C17": " Also: the statements behind the counts that feed the limit checks count every row (SELECT COUNT(*) without WHERE/JOIN/GROUP).",
 "C18": " Also: State.Select/Examine install the new snapshot last (no failure return is reachable after State.snap is set).",
 "C19": " Also: the lock-order graph includes generic instantiations.",
}

EXTRA4 = {
 "C01": " Also: State.idleCh is armed only after a successful flush that holds nothing back (nothing queued can be overtaken by live pushes).",
 "C02": " Also: updates returned by a call are consumed on every path to a success return; every function calling tx.RemoveMessagesFromMailbox / AddMessagesToMailbox / DeleteMailboxWithRemoteID builds the matching announcement.",
 "C03": " Also: no function working inside a write transaction reads the session's copy of a message's flags (writes are decided from the index).",
 "C06": " Also: no success return of the update appliers hangs on strings.EqualFold of two data values (a case-only rename is a change).",
 "C07": " Also: every success return of the MessageDeleted transaction passes MarkMessageAsDeleted* unless the message is unknown.",
 "C11": " Also: every error return of command.Parser.Parse after the tag is known carries the tag; the encoding returned by ianaindex is nil-tested before use.",
 "C12": " Also: in the parsing packages every element access x[i-k] has i-k >= 0 proved from the dominating conditions (one function tabled with the invariant it relies on).",
 "C13": " Also: rfc822.Split locates the end of the header by single-byte (line) searches only and returns a partition b[0:k], b[k:].",
 "C14": " Also: a mailbox deletion by the connector always clears the deleted subscription of that name.",
 "C18": " Also: the file name placed into the SQLite file: URI is url.PathEscape'd (two users never share a database through percent-decoding).",
 "C19": " Also: plain blocking sends in the session package occur only on the response and event channels; every other send sits in a select with a receive (shutdown) case.",
 "C20": " Also: MessageHashesMap.Erase leaves its loop over the ids only by exhaustion.",
}

EXTRA5 = {
 "C01": " Also: the responder queue is reset on every path to the installation of a new snapshot (unless no snapshot was set).",
 "C02": " Also: a list of updates obtained inside a loop is consumed before the loop comes round again; State.HasMessage is not consulted inside internal/state.",
 "C03": " Also: the pairs a MOVE adds and the internal ids it removes are two views of one list (db.SplitMessageIDPairSlice of the same value).",
 "C06": " Also: the update appliers consume every list of state updates a call returns, on every path and in every loop iteration.",
 "C07": " Also: unchecked flag lookups use lower-case keys (shared with C03).",
 "C08": " Also: a loop over statement batches (xslices.Chunk) cannot be left early into a success.",
 "C09": " Also: an entry leaves the lock table (and returns to the pool) only on a reference-count read made while the table lock is held.",
 "C10": " Also: no argument is refused by the command parser for its length.",
 "C11": " Also: the offsets recorded for a header entry are proved <= len(header); subtractive indices are proved non-negative (shared with C12).",
 "C12": " Also: the offsets recorded for a header entry (valueStart / valueEnd) are proved <= len(header).",
 "C13": " Also: whether ScanAll records a scanned part depends only on the nil test (an empty part keeps its number).",
 "C14": " Also: a prefix test on a mailbox name is not guarded more strictly than the slice needs (the name that is exactly the prefix is covered).",
 "C15": " Also: the statement behind GetMessageDateAndSize selects by the message id alone.",
 "C16": " Also: only the resolver functions read the bounds of a command.SeqRange.",
 "C18": " Also: the repository's own connector compares the password bytes without case folding or normalising.",
 "C19": " Also: a consumer of a handed response channel returns only after it has seen the channel closed (directly or through a drainer it calls).",
 "C20": " Also: the id of every imported recovered message is consumed on every non-failing path of the copy/move-out loop.",
}

EXTRA6 = {
 "C02": " Also: idleCh is armed only after a flush that holds nothing back (shared with C01).",
 "C03": " Also: the remote ids the connector is told to add derive only from the list that is added locally.",
 "C06": " Also: the state updates of two calls are concatenated in the order of their writes.",
 "C11": " Also: every name decodeMailboxName returns is the output of the UTF-7 decoder (the only validation of its bytes).",
 "C12": " Also: countLines increments only where the remaining bytes are proved non-empty (an empty body has 0 lines).",
 "C13": " Also: in Fields / FieldsNot an entry copied without the name lookup is identified by a test on its own bytes / key.",
 "C14": " Also: in State.List every existing mailbox removes its remote id from the deleted subscriptions, on every iteration; names pass the UTF-7 decoder.",
 "C16": " Also: the command parser performs no arithmetic or comparison on SeqNum values.",
 "C17": " Also: the error of a limit-check helper (checkMailboxHasRoom) is never dropped.",
 "C18": " Also: Backend.loginErrorCount is written only by the login path (getUserID, its timer callback and helpers).",
 "C19": " Also: every accepted connection has its Close deferred in Server.serve itself.",
 "C20": " Also: State.List decides about the recovery mailbox from GetMailboxMessageCount.",
}

EXTRA7 = {
 "C07": " Also: T-SQL (arity, chunk bound, schema) over the statements reachable from start-up clean-up and the removal of marked messages.",
 "C19": " Also: nothing reachable from a function literal that runs inside a database wrapper enters db.Client.Read/Write again (self edge of the database lock); every sync.Cond Broadcast/Signal is issued with cond.L held or after the function passed through cond.L (no lost wake-up of the queue pump).",
 "C04": " Also: no function of internal/state / internal/backend permutes a slice parameter in place (request order = UID order).",
 "C15": " Also: the numbers handed to response.Search originate only from Mailbox.Search (where UID vs sequence number is decided).",
 "C20": " R20.4 now also treats a caller-supplied mailbox as possibly the recovery mailbox.",
 "C03": " Also: per-flag index writes pick their ids out of the unfiltered rows tx.GetMessagesFlags returned; every comparison of message_flags.value with a bound parameter is COLLATE NOCASE (found and repaired a genuine defect, fix f80fe44).",
 "C05": " Also: the responder queue (State.res) receives every responder queueResponder is given, on every path.",
 "C09": " Also: only a failed parse of the file name keeps a stored entry out of List; a releaser removes a lock-table entry only on the equal edge of a comparison of the table's current entry for the id with its own (found and repaired a genuine defect, fix 14ba087).",
 "C10": " Also: Scanner.ConsumeBytes (which prepends the look-ahead byte) is never executed twice without an advance of the scanner in between. In imap/command no arithmetic or comparison has a SeqNum operand (a set is parsed to exactly what was written; rule shared with C16).",
 "C11": " Also: a method of a command's payload is called only where the error that came with the command was found nil.",
 "C12": " Also: every string converted to rfc822.MIMEType is a constant, a mime.ParseMediaType result or lower-cased.",
 "C13": " Also: a size returned next to an io.MultiReader over byte slices equals, as a linear expression, the sum of the lengths of the parts.",
 "C14": " Also: no connector update is acknowledged as a no-op because two names are equal ignoring case (shared with C06); a deleted subscription is listed only on the not-found outcome of a lookup of its name among the existing mailboxes (found and repaired a genuine defect, fix b40ae69).",
 "C16": " Also: no UID / SeqID is incremented in the 32-bit domain where message sets are resolved.",
 "C17": " Also: the room of a mailbox is measured only after the function's removals from that mailbox.",
}

for i in ids:
    if i in impl and i in T:
        lt, ln, tech, ref = T[i]
        checks.append({
            "property_id": i,
            "quick_cmd": f"./bin/verifcheck -property {i} -tier quick",
            "thorough_cmd": f"./bin/verifcheck -property {i} -tier thorough",
            "evidence_file": f"evidence/{i}.json",
            "replay_cmd_template": "./bin/verifcheck -replay {path}",
            "engine": "verifcheck",
            "level_claimed": {"category": "other", "text": lt + EXTRA.get(i, "") + EXTRA3.get(i, "") + EXTRA4.get(i, "") + EXTRA5.get(i, "") + EXTRA6.get(i, "") + EXTRA7.get(i, ""), "design_ref": ref},
            "level_note": ln,
            "technique": tech,
        })
na = [{"property_id": i, "reason": NA_REASON.get(i, "rules for this property are designed (DESIGN.md section 4) but not built yet; no claim is made until the check exists")}
      for i in ids if i not in [c["property_id"] for c in checks]]
m = {
 "version": 1,
 "setup_cmd": "cd checker && GOFLAGS=-mod=vendor GOPROXY=off GOSUMDB=off GOTOOLCHAIN=local GOWORK=off CGO_ENABLED=1 go build -o ../bin/verifcheck ./cmd/verifcheck",
 "hooks": {"guard": "verif", "enable": "none needed: the checker reads source; no hook was added to /repo", "baseline_off_cmd": "cd /repo && go test -mod=mod -vet=off -count=1 -timeout 25m ./...", "source_commits": [], "add_only": True},
 "engines": [{"name": "verifcheck", "path": "checker/", "serves_properties": [c["property_id"] for c in checks], "kind_free_text": "repository-specific static analyser over go/packages + go/ssa + VTA call graph (golang.org/x/tools v0.29.0)"}],
 "checks": checks,
 "not_applicable": na,
 "notes": "Static analysis only. Every check re-loads /repo's current working tree; exit 2 (no VIOLATION line) means the tree does not type-check or the checker failed. known_findings.json lists genuine defects (KNOWN-FINDING lines) and fixed ones.",
}
json.dump(m, open(os.path.join(V, "MANIFEST.json"), "w"), indent=1)
print("checks:", [c["property_id"] for c in checks], "na:", len(na))
