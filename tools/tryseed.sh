#!/bin/bash
# tryseed.sh <property> <patch.diff> : apply a seeded change to a scratch copy of /repo and run the property's check
set -u
export GOFLAGS=-mod=mod GOPROXY=off GOSUMDB=off GOTOOLCHAIN=local; unset GOWORK
VERIF=/verif; p=$1; patch=$(readlink -f "$2"); shift 2
WT=$(mktemp -d /tmp/verif-tryseed.XXXXXX); trap 'rm -rf "$WT"' EXIT
(cd /repo && git ls-files -z | xargs -0 tar -cf - 2>/dev/null) | tar -xf - -C "$WT"
(cd "$WT" && git init -q . && git add -A >/dev/null 2>&1 && git -c user.email=v@v -c user.name=v commit -qm base >/dev/null)
if ! git -C "$WT" apply "$patch" 2>/dev/null; then if ! git -C "$WT" apply -3 "$patch" 2>/dev/null; then echo "PATCH DOES NOT APPLY"; exit 3; fi; fi
for q in $p "$@"; do
  out=$("${VERIFBIN:-$VERIF/bin/verifcheck}" -property "$q" -repo "$WT" -verif "$VERIF" -no-evidence 2>&1); rc=$?
  echo "== $q rc=$rc"; grep -B1 "^VIOLATION" <<<"$out" | grep -v "^VIOLATION\|^--" | cut -c1-330 | head -6; tail -1 <<<"$out"
done
