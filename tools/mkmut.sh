#!/bin/bash
# mkmut.sh <property> <name> <file> <python-expr-on-s>   : creates mutants/<property>/<name>.diff
# The expression transforms the file content `s` (must change it).  The mutant must compile.
set -eu
export GOFLAGS=-mod=mod GOPROXY=off GOSUMDB=off GOTOOLCHAIN=local; unset GOWORK
VERIF=$(cd "$(dirname "$0")/.." && pwd)
prop=$1; name=$2; file=$3; expr=$4
WT=/tmp/verif-mkmut
HEADNOW=$(git -C /repo rev-parse HEAD)
if [ ! -d $WT/.git ] || [ "$(cat $WT/.base 2>/dev/null)" != "$HEADNOW" ]; then rm -rf $WT; mkdir -p $WT; (cd /repo && git ls-files -z | xargs -0 tar -cf - 2>/dev/null) | tar -xf - -C $WT; (cd $WT && git init -q . && git add -A >/dev/null 2>&1 && git -c user.email=v@v -c user.name=v commit -qm base >/dev/null); echo $HEADNOW > $WT/.base; fi
cd $WT; git checkout -q -- .
python3 - "$file" "$expr" <<'PY'
import sys,re
f,expr=sys.argv[1],sys.argv[2]
s=open(f).read()
t=eval(expr)
assert t!=s, "mutation did not change the file"
open(f,'w').write(t)
PY
go build ./... 
DIR=${MUTDIR:-mutants}
mkdir -p $VERIF/$DIR/$prop
git diff > $VERIF/$DIR/$prop/$name.diff
git checkout -q -- .
echo "wrote $DIR/$prop/$name.diff"
