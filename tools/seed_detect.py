#!/usr/bin/env python3
"""seed_detect.py: apply every /verif/seeded/<P>-<v>/patch.diff to a scratch copy of /repo's current tree,
run that property's check, and record in meta.json which obligations report it (detected_by) or that
nothing does.  Scratch copies live under /tmp and are removed."""
import json, os, subprocess, sys, tempfile, shutil, glob, re
VERIF = os.path.dirname(os.path.dirname(os.path.abspath(__file__)))
env = dict(os.environ, GOFLAGS="-mod=mod", GOPROXY="off", GOSUMDB="off", GOTOOLCHAIN="local")
env.pop("GOWORK", None)
only = sys.argv[1:]
rows = []
for d in sorted(glob.glob(VERIF + "/seeded/C*-*")):
    name = os.path.basename(d)
    if only and name not in only and name.split("-")[0] not in only:
        continue
    prop = name.split("-")[0]
    wt = tempfile.mkdtemp(prefix="verif-seeddet.")
    try:
        subprocess.run("cd /repo && git ls-files -z | xargs -0 tar -cf - 2>/dev/null | tar -xf - -C " + wt, shell=True, check=True)
        subprocess.run("git init -q . && git add -A >/dev/null 2>&1 && git -c user.email=v@v -c user.name=v commit -qm base >/dev/null", shell=True, cwd=wt, check=True)
        applies = subprocess.run(["git", "-C", wt, "apply", d + "/patch.diff"], capture_output=True).returncode == 0
        how = "applies to the current tree"
        if not applies:
            applies = subprocess.run(["git", "-C", wt, "apply", "-3", d + "/patch.diff"], capture_output=True).returncode == 0
            how = "applies with 3-way merge"
        if not applies and os.path.exists(d + "/patch-adapted-to-current-tree.diff"):
            applies = subprocess.run(["git", "-C", wt, "apply", d + "/patch-adapted-to-current-tree.diff"], capture_output=True).returncode == 0
            how = "patch-adapted-to-current-tree.diff (same edit re-made on the current tree)"
        meta_p = d + "/meta.json"
        meta = json.load(open(meta_p)) if os.path.exists(meta_p) else {"property": prop, "variant": name.split("-")[1]}
        if not applies:
            meta["detected_by"] = meta.get("detected_by") if isinstance(meta.get("detected_by"), dict) and meta["detected_by"].get("manual") else None
            meta["applies_to_current_tree"] = False
            rows.append((name, "does not apply"))
        else:
            meta["applies_to_current_tree"] = True
            out = subprocess.run([VERIF + "/bin/verifcheck", "-property", prop, "-repo", wt, "-verif", VERIF, "-no-evidence"], capture_output=True, text=True, env=env)
            keys = []
            lines = out.stdout.splitlines()
            for i, l in enumerate(lines):
                if l.startswith("VIOLATION") and i > 0:
                    m = re.match(r"\s+(R[0-9.]+[a-z]?\|[^ ]+(?: [^ ]+)*?) [a-z/_A-Z0-9.]+\.go:\d+", lines[i-1])
                    keys.append((m.group(1) if m else lines[i-1].strip()[:160]))
            meta["detected_by"] = {"check": prop, "exit": out.returncode, "obligations": keys, "how_applied": how} if out.returncode == 1 else None
            if out.returncode not in (0, 1):
                meta["detected_by"] = {"check": prop, "exit": out.returncode, "error": out.stdout[-300:]}
            other = {}
            for q in meta.get("also_run", []):
                o2 = subprocess.run([VERIF + "/bin/verifcheck", "-property", q, "-repo", wt, "-verif", VERIF, "-no-evidence"], capture_output=True, text=True, env=env)
                l2 = o2.stdout.splitlines()
                ks = [l2[i-1].strip()[:160] for i, l in enumerate(l2) if l.startswith("VIOLATION") and i > 0]
                other[q] = {"exit": o2.returncode, "obligations": ks}
            if other:
                meta["detected_by_other_checks"] = other
            rows.append((name, "DETECTED " + "; ".join(keys)[:200] if out.returncode == 1 else "not detected (rc=%d)" % out.returncode + (" ; other checks: " + ", ".join(q for q in other if other[q]["exit"] == 1) if other else "")))
        json.dump(meta, open(meta_p, "w"), indent=1)
    finally:
        shutil.rmtree(wt, ignore_errors=True)
for r in rows:
    print("%-8s %s" % r)
