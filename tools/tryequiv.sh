#!/bin/bash
# tryequiv.sh [dir]: run every refactoring patch <dir>/<Cxx>/*.diff (default /tmp/equiv) through the check of its
# property on a scratch copy of /repo's current tree; a patch that does not apply or does not build is skipped.
set -u
export GOFLAGS=-mod=mod GOPROXY=off GOSUMDB=off GOTOOLCHAIN=local; unset GOWORK
VERIF=/verif; D=${1:-/tmp/equiv}
WT=$(mktemp -d /tmp/verif-tryequiv.XXXXXX); trap 'rm -rf "$WT"' EXIT
(cd /repo && git ls-files -z | xargs -0 tar -cf - 2>/dev/null) | tar -xf - -C "$WT"
(cd "$WT" && git init -q . && git add -A >/dev/null 2>&1 && git -c user.email=v@v -c user.name=v commit -qm base >/dev/null)
for pd in "$D"/C*/; do p=$(basename "$pd")
  for m in "$pd"*.diff; do [ -f "$m" ] || continue
    if ! git -C "$WT" apply "$m" 2>/dev/null; then echo "SKIP $p $(basename $m) (does not apply)"; continue; fi
    if ! (cd "$WT" && go build ./... >/dev/null 2>&1); then echo "SKIP $p $(basename $m) (does not build)"; git -C "$WT" checkout -q -- .; git -C "$WT" clean -qfd; continue; fi
    out=$("$VERIF/bin/verifcheck" -property "$p" -repo "$WT" -verif "$VERIF" -no-evidence 2>&1); rc=$?
    if [ $rc -eq 0 ]; then echo "SILENT $p $(basename $m)"; else echo "ALARM $p $(basename $m) rc=$rc :: $(grep -B1 '^VIOLATION' <<<"$out" | grep -v '^VIOLATION\|^--' | head -3 | cut -c1-400 | tr '\n' '|')"; fi
    git -C "$WT" checkout -q -- .; git -C "$WT" clean -qfd
  done
done
