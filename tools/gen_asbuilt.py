#!/usr/bin/env python3
"""Regenerates the machine-derived part of DESIGN.md section 9 (between the AS-BUILT markers):
the rules each check evaluates (from the checker's own Explain strings in evidence/*.json), their
instance counts, the findings/fixes table (known_findings.json) and the seeded-change table
(seeded/*/meta.json)."""
import json, glob, os, re
V = os.path.dirname(os.path.dirname(os.path.abspath(__file__)))
out = []
out.append("### 9.4 Rules as built (generated from evidence/*.json by tools/gen_asbuilt.py)\n")
for f in sorted(glob.glob(V + "/evidence/C*.json")):
    ev = json.load(open(f))
    cov = ev["coverage"]
    out.append(f"**{ev['property_id']}** — {cov['obligations']} obligations on the current tree; mutants {cov['stats'].get('mutants_detected','?')}/{cov['stats'].get('mutants_applied','?')} reported, equivalents {cov['stats'].get('equivalents_silent',0)}/{cov['stats'].get('equivalents_total',0)} silent (thorough tier)\n")
    for line in cov["explanation"].split("\n"):
        if not line.strip():
            continue
        rule = line.split(":")[0]
        n = cov["per_rule"].get(rule, {}).get("obligations", 0)
        out.append(f"* `{rule}` ({n}): {line[len(rule)+2:]}")
    if cov.get("known_findings"):
        out.append("* known findings matched: " + "; ".join(cov["known_findings"]))
    out.append("")
k = json.load(open(V + "/known_findings.json"))
out.append("### 9.5 Defects found in ProtonMail/gluon (from known_findings.json)\n")
out.append("Every entry was first reproduced against the real code (demo under `/verif/findings/`), then either repaired by one unguarded `fix:` commit in /repo or recorded as a known finding.\n")
out.append("| property | commit | what failed |")
out.append("|---|---|---|")
for s in k["fixed"]:
    m = re.match(r"fixed: property=(\S+) (\S+) (.*)", s)
    out.append(f"| {m.group(1)} | `{m.group(2)}` | {m.group(3).replace('|','/')} |")
out.append("")
out.append("Known findings (not repaired; the check prints `KNOWN-FINDING` for exactly this obligation key and still reports any other violation):\n")
for x in k["findings"]:
    out.append(f"* **{x['id']}** ({x['property']}) `{x['key']}` — {x['what']}")
out.append("")
out.append("### 9.6 Seeded changes (independent sub-agents) and which obligation reports them\n")
out.append("Each change was written by a fresh sub-agent that saw only the property text and its own worktree; it compiles, passes the existing suite (flaky names excepted) and has a demo that fails with it; `confirmed` = re-checked by tools/confirm_seed.sh. `detected_by` was measured by tools/seed_detect.py on a scratch copy of the current tree.\n")
out.append("| seed | confirmed | reported by |")
out.append("|---|---|---|")
for d in sorted(glob.glob(V + "/seeded/C*-*")):
    mp = d + "/meta.json"
    if not os.path.exists(mp):
        continue
    m = json.load(open(mp))
    det = m.get("detected_by")
    if m.get("applies_to_current_tree") is False:
        rep = m.get("note_not_applicable", "patch no longer applies to the repaired tree")
    elif det and det.get("obligations"):
        rep = "; ".join("`" + o.split(" ")[0] + "`" for o in det["obligations"][:2])
    elif det:
        rep = "reported (exit 1)"
    else:
        rep = "**not reported** — " + m.get("why_not_detected", "value-level change, outside what the rules decide")
    out.append(f"| {os.path.basename(d)} | {'yes' if m.get('confirmed') else 'no (see confirm.log)'} | {rep} |")
out.append("")
text = "\n".join(out)
p = V + "/DESIGN.md"
s = open(p).read()
b, e = "<!-- AS-BUILT BEGIN -->", "<!-- AS-BUILT END -->"
if b in s:
    s = s[:s.index(b) + len(b)] + "\n" + text + "\n" + s[s.index(e):]
else:
    s += "\n" + b + "\n" + text + "\n" + e + "\n"
open(p, "w").write(s)
print("as-built section:", len(out), "lines")
