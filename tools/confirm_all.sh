#!/bin/bash
# confirm_all.sh [jobs] : confirm every seed under /tmp/seeded that is not yet confirmed in /verif/seeded
J=${1:-3}
cd /tmp/seeded || exit 0
ls -d C*/[ab] | while read d; do p=${d%/*}; v=${d#*/}; m=/verif/seeded/$p-$v/meta.json
  if [ -f $m ] && [ "$(jq -r .confirmed $m)" = true ] && [ -f /verif/seeded/$p-$v/suite.log ]; then continue; fi
  echo "$p $v"; done | xargs -P $J -L 1 /verif/tools/confirm_seed.sh
