#!/bin/bash
# confirm_demo.sh <property> <variant> : the light half of confirm_seed.sh - only the demonstration is re-run
# (passes on the tree the seed was written against, fails with the change); the full suite is NOT re-run.
# Writes "demo_confirmed" into seeded/<p>-<v>/meta.json.
set -u
export GOFLAGS=-mod=mod GOPROXY=off GOSUMDB=off GOTOOLCHAIN=local; unset GOWORK
p=$1; v=$2; dst=/verif/seeded/$p-$v
BASE=$(jq -r '.written_against_newest_matching_commit // "HEAD"' $dst/meta.json)
WT=$(mktemp -d /tmp/verif-confirmdemo.XXXXXX); trap 'rm -rf "$WT"' EXIT
git -C /repo archive $BASE | tar -x -C $WT
cd $WT && git init -q . && git add -A >/dev/null 2>&1 && git -c user.email=v@v -c user.name=v commit -qm base >/dev/null
pkgdir() { case "$(grep -m1 '^package ' "$1" | awk '{print $2}')" in
  tests) echo tests;; command) echo imap/command;; rfcparser) echo rfcparser;; imap) echo imap;;
  sqlite3) echo internal/db_impl/sqlite3;; store_test|store) echo store;; state) echo internal/state;;
  backend) echo internal/backend;; session) echo internal/session;; rfc822) echo rfc822;; rfc5322) echo rfc5322;;
  *) echo tests;; esac; }
pkgs=""
for f in $dst/*_test.go; do d=$(pkgdir $f); cp $f $WT/$d/zz_seed_$(basename $f); case " $pkgs " in *" ./$d/ "*) ;; *) pkgs="$pkgs ./$d/";; esac; done
rx="^($(grep -h '^func Test' $dst/*_test.go | sed -E 's/^func (Test[A-Za-z0-9_]*).*/\1/' | sort -u | paste -sd'|'))\$"
(cd $WT && timeout 400 go test -count=1 -run "$rx" $pkgs -timeout 300s) > $dst/confirm_demo.log 2>&1; without=$?
git -C $WT apply $dst/patch.diff >> $dst/confirm_demo.log 2>&1 || { echo "$p-$v: patch does not apply"; exit 1; }
(cd $WT && go build ./...) >> $dst/confirm_demo.log 2>&1; build=$?
(cd $WT && timeout 400 go test -count=1 -run "$rx" $pkgs -timeout 300s) 2>&1 | tail -40 >> $dst/confirm_demo.log; with=${PIPESTATUS[0]}
ok=false; if [ $without -eq 0 ] && [ $build -eq 0 ] && [ $with -ne 0 ]; then ok=true; fi
python3 - "$dst" "$ok" "$without" "$with" <<'PY'
import json,sys
d,ok,w0,w1=sys.argv[1:]
m=json.load(open(d+"/meta.json"))
m["demo_confirmed"]=(ok=="true")
m["demo_ran"]={"demo_without_change_exit":int(w0),"demo_with_change_exit":int(w1),"note":"demonstration re-run by tools/confirm_demo.sh; the full suite with the change was run by the sub-agent that wrote the seed (see notes.md) and not repeated here"}
json.dump(m,open(d+"/meta.json","w"),indent=1)
PY
echo "$p-$v: demo_confirmed=$ok (without=$without build=$build with=$with)"
