#!/bin/bash
# rename_test.sh [jobs]: for every anchor function the rules look up by name, rename it consistently in a scratch
# copy (identifier-wide sed), build, and run the checks that use the anchor: a pure rename must stay silent.
set -u
export GOFLAGS=-mod=mod GOPROXY=off GOSUMDB=off GOTOOLCHAIN=local; unset GOWORK
V=/verif; J=${1:-6}
D=$(mktemp -d /tmp/verif-anchors.XXXX)
for p in $($V/bin/verifcheck -list); do VERIF_DUMP_ANCHORS=$D $V/bin/verifcheck -property $p -no-evidence >/dev/null 2>&1 || true; done
# anchor -> props
python3 - "$D" > $D/list.txt <<'PY'
import json,glob,sys,os
m={}
for f in glob.glob(sys.argv[1]+'/C*.json'):
    p=os.path.basename(f)[:-5]
    for k in (json.load(open(f)) or {}): m.setdefault(k,[]).append(p)
for k,v in sorted(m.items()): print(k, ",".join(sorted(v)))
PY
one() {
  name=$1; props=$2
  short=${name##*.}; short=${short##*)}
  WT=$(mktemp -d /tmp/verif-ren.XXXXXX)
  (cd /repo && git ls-files -z | xargs -0 tar -cf - 2>/dev/null) | tar -xf - -C "$WT"
  grep -rlw --include=*.go "$short" "$WT" | xargs sed -i "s/\b$short\b/${short}Zz/g"
  if ! (cd "$WT" && go build ./... >/dev/null 2>&1); then echo "SKIP $name (rename by sed does not build)"; rm -rf "$WT"; return; fi
  res=""
  for p in ${props//,/ }; do
    out=$(/verif/bin/verifcheck -property $p -repo "$WT" -verif /verif -no-evidence 2>&1); rc=$?
    [ $rc -ne 0 ] && res="$res $p[$(grep -B1 '^VIOLATION' <<<"$out" | grep -v '^VIOLATION\|^--' | head -1 | cut -c1-200)]"
  done
  if [ -z "$res" ]; then echo "SILENT $name ($props)"; else echo "ALARM $name ::$res"; fi
  rm -rf "$WT"
}
export -f one
cat $D/list.txt | xargs -P $J -L 1 bash -c 'one "$0" "$1"'
rm -rf $D
