#!/bin/bash
# confirm_seed.sh <property> <variant> <demo-package-dir> [demo test regex]
# Confirms a seeded change independently: (1) applies to a scratch copy of the ORIGINAL tree
# the seed was written against (/repo at $SEED_BASE, default 257ec47) plus — if it still
# applies — of the current tree; (2) builds; (3) demo fails with the change; (4) demo passes
# without; (5) the existing suite passes with the change.  Results -> /verif/seeded/<p>-<v>/.
set -u
export GOFLAGS=-mod=mod GOPROXY=off GOSUMDB=off GOTOOLCHAIN=local; unset GOWORK
p=$1; v=$2; pkg=$3; rx=${4:-Demo}
src=/tmp/seeded/$p/$v
dst=/verif/seeded/$p-$v
mkdir -p $dst
cp $src/patch.diff $dst/patch.diff
cp $src/demo_test.go $dst/demo_test.go 2>/dev/null || cp $src/*_test.go $dst/ 2>/dev/null
cp $src/notes.md $dst/notes.md 2>/dev/null
BASE=${SEED_BASE:-257ec47}
WT=$(mktemp -d /tmp/verif-confirm.XXXXXX); trap 'rm -rf "$WT"' EXIT
git -C /repo archive $BASE 2>/dev/null | tar -x -C $WT 2>/dev/null
cd $WT && git init -q . && git add -A >/dev/null 2>&1 && git -c user.email=v@v -c user.name=v commit -qm base >/dev/null
log=$dst/confirm.log; : > $log
for f in $dst/*_test.go; do cp $f $WT/$pkg/; done
echo "## demo WITHOUT the change (must pass)" >> $log
(cd $WT && timeout 400 go test -count=1 -run "$rx" ./$pkg/ -timeout 300s) >> $log 2>&1; without=$?
git -C $WT apply $dst/patch.diff >> $log 2>&1 || { echo "PATCH DOES NOT APPLY" >> $log; echo "$p-$v: patch does not apply"; exit 1; }
echo "## build WITH the change" >> $log
(cd $WT && go build ./...) >> $log 2>&1; build=$?
echo "## demo WITH the change (must fail)" >> $log
(cd $WT && timeout 400 go test -count=1 -run "$rx" ./$pkg/ -timeout 300s) 2>&1 | tail -40 >> $log; with=${PIPESTATUS[0]}
for f in $dst/*_test.go; do rm -f $WT/$pkg/$(basename $f); done
echo "## existing suite WITH the change (must pass)" >> $log
(cd $WT && timeout 1700 go test -mod=mod -vet=off -count=1 -timeout 25m ./... 2>&1 | grep -E "^(ok|FAIL|---|panic)" ) > $dst/suite.log 2>&1
cat $dst/suite.log >> $log
suite=$(grep -c "^FAIL\|^--- FAIL\|^panic" $dst/suite.log)
# only flaky names tolerated
flaky="TestBatchMessageAddedWithMultipleFlags|TestDeleteMailboxFromConnectorAlsoRemoveSubscriptionStatus|TestDeletionPool|TestDraftScenario|TestInvalidIMAPCommandDoesNotBlockStateUpdates|TestMailboxCreatedUpdate|TestMessageAddWithSameID|TestMessageCreatedIDLEUpdate|TestMessageCreatedNoopUpdate|TestMessageCreatedWithIgnoreMissingMailbox|TestMessageFlaggedUpdate|TestMessageRemovedUpdate|TestMessageRemovedUpdateRepeated|TestMessageSeenUpdate"
hard=$(grep "^--- FAIL\|^panic" $dst/suite.log | grep -vE "($flaky)" | wc -l)
echo "RESULT without=$without build=$build with=$with suite_fail_lines=$suite hard_fail=$hard" >> $log
ok=false; if [ $without -eq 0 ] && [ $build -eq 0 ] && [ $with -ne 0 ] && [ $hard -eq 0 ]; then ok=true; fi
python3 - "$p" "$v" "$pkg" "$ok" "$without" "$with" "$hard" <<'PY'
import json,sys,os
p,v,pkg,ok,without,withc,hard=sys.argv[1:]
d=f"/verif/seeded/{p}-{v}"
notes=open(d+"/notes.md").read() if os.path.exists(d+"/notes.md") else ""
meta={"property":p,"variant":v,"breaks":p,"demo_package":pkg,"confirmed":ok=="true",
 "needs_to_manifest": "see notes.md (written by the independent sub-agent that produced the change)",
 "ran":{"base":"/repo at 257ec47 (tree the seed was written against)","demo_without_change_exit":int(without),"demo_with_change_exit":int(withc),"non_flaky_suite_failures_with_change":int(hard),
        "commands":[f"go test -run Demo ./{pkg}/ (with and without patch.diff)","go build ./...","go test -mod=mod -vet=off -count=1 -timeout 25m ./... (with patch.diff)"]},
 "detected_by": None}
old=d+"/meta.json"
if os.path.exists(old):
    try: meta["detected_by"]=json.load(open(old)).get("detected_by")
    except Exception: pass
json.dump(meta,open(old,"w"),indent=1)
PY
echo "$p-$v: confirmed=$ok (without=$without with=$with hard=$hard)"
