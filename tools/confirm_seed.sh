#!/bin/bash
# confirm_seed.sh <property> <variant> [source dir]
# Confirms a seeded change independently of the sub-agent that wrote it:
#  (1) scratch copy of the tree the seed was written against (/repo at $SEED_BASE, default 257ec47);
#  (2) every demo test file is placed in the package its `package` clause names;
#  (3) demos pass WITHOUT the change; (4) the change builds; (5) demos fail WITH the change;
#  (6) the existing suite (demos removed) passes WITH the change, tolerating only the names on the
#      baseline's flaky list; tests.TestRemoteDeletionPool is skipped because it hangs under load on
#      the unchanged tree too.
# Results -> /verif/seeded/<p>-<v>/{patch.diff,*_test.go,notes.md,confirm.log,suite.log,meta.json}.
set -u
export GOFLAGS=-mod=mod GOPROXY=off GOSUMDB=off GOTOOLCHAIN=local; unset GOWORK
p=$1; v=$2
dst=/verif/seeded/$p-$v
src=${3:-/tmp/seeded/$p/$v}
mkdir -p $dst
if [ -d "$src" ]; then
  cp $src/patch.diff $dst/patch.diff
  cp $src/*_test.go $dst/ 2>/dev/null
  cp $src/notes.md $dst/notes.md 2>/dev/null
fi
BASE=${SEED_BASE:-257ec47}
WT=$(mktemp -d /tmp/verif-confirm.XXXXXX); trap 'rm -rf "$WT"' EXIT
git -C /repo archive $BASE 2>/dev/null | tar -x -C $WT 2>/dev/null
cd $WT && git init -q . && git add -A >/dev/null 2>&1 && git -c user.email=v@v -c user.name=v commit -qm base >/dev/null
log=$dst/confirm.log; : > $log
pkgdir() { case "$(grep -m1 '^package ' "$1" | awk '{print $2}')" in
  tests) echo tests;; command) echo imap/command;; rfcparser) echo rfcparser;; imap) echo imap;;
  sqlite3) echo internal/db_impl/sqlite3;; store_test|store) echo store;; state) echo internal/state;;
  backend) echo internal/backend;; session) echo internal/session;; rfc822) echo rfc822;; rfc5322) echo rfc5322;;
  *) echo tests;; esac; }
pkgs=""
place() { for f in $dst/*_test.go; do d=$(pkgdir $f); cp $f $WT/$d/zz_seed_$(basename $f); case " $pkgs " in *" ./$d/ "*) ;; *) pkgs="$pkgs ./$d/";; esac; done; }
unplace() { find $WT -name 'zz_seed_*_test.go' -delete; }
rx="^($(grep -h '^func Test' $dst/*_test.go | sed -E 's/^func (Test[A-Za-z0-9_]*).*/\1/' | sort -u | paste -sd'|'))\$"
place
echo "## demo WITHOUT the change (must pass): $pkgs" >> $log
(cd $WT && timeout 600 go test -count=1 -run "$rx" $pkgs -timeout 500s) >> $log 2>&1; without=$?
git -C $WT apply $dst/patch.diff >> $log 2>&1 || { echo "PATCH DOES NOT APPLY" >> $log; echo "$p-$v: patch does not apply"; exit 1; }
echo "## build WITH the change" >> $log
(cd $WT && go build ./...) >> $log 2>&1; build=$?
echo "## demo WITH the change (must fail)" >> $log
(cd $WT && timeout 600 go test -count=1 -run "$rx" $pkgs -timeout 500s) 2>&1 | tail -60 >> $log; with=${PIPESTATUS[0]}
unplace
echo "## existing suite WITH the change (must pass)" >> $log
(cd $WT && timeout 1700 go test -mod=mod -vet=off -count=1 -timeout 25m -skip 'TestRemoteDeletionPool$' ./... 2>&1 | grep -E "^(ok|FAIL|---|panic)" ) > $dst/suite.log 2>&1
cat $dst/suite.log >> $log
flaky="TestBatchMessageAddedWithMultipleFlags|TestDeleteMailboxFromConnectorAlsoRemoveSubscriptionStatus|TestDeletionPool|TestDraftScenario|TestInvalidIMAPCommandDoesNotBlockStateUpdates|TestMailboxCreatedUpdate|TestMessageAddWithSameID|TestMessageCreatedIDLEUpdate|TestMessageCreatedNoopUpdate|TestMessageCreatedWithIgnoreMissingMailbox|TestMessageFlaggedUpdate|TestMessageRemovedUpdate|TestMessageRemovedUpdateRepeated|TestMessageSeenUpdate"
if grep -q "^panic: test timed out" $dst/suite.log; then
  # a hang of package tests under the load of the parallel run (happens on the unchanged tree too): run that package alone
  echo "## package tests hung in the full run; re-running it alone (up to 2 times, 8 min each)" >> $log
  for try in 1 2; do
    (cd $WT && timeout 600 go test -mod=mod -vet=off -count=1 -timeout 8m -skip 'TestRemoteDeletionPool$' ./tests/ 2>&1 | grep -E "^(ok|FAIL|---|panic)") > $dst/suite_tests_alone.log 2>&1
    cat $dst/suite_tests_alone.log >> $log
    if grep -q "^ok" $dst/suite_tests_alone.log; then
      grep -v "^panic: test timed out\|^FAIL" $dst/suite.log > $dst/suite.log.tmp; cat $dst/suite_tests_alone.log >> $dst/suite.log.tmp; mv $dst/suite.log.tmp $dst/suite.log
      echo "package tests passed when run alone (try $try): the hang is counted as load flake" >> $dst/suite.log
      break
    fi
  done
fi
hardnames=$(grep "^--- FAIL" $dst/suite.log | grep -vE "($flaky)" | awk '{print $3}' | sort -u | paste -sd'|')
hard=$(grep "^--- FAIL\|^panic" $dst/suite.log | grep -vE "($flaky)" | wc -l)
if [ -n "$hardnames" ] && ! grep -q "^panic" $dst/suite.log; then
  # a failure outside the flaky list: is it the load of the parallel run or the change?  Re-run it alone, 3 times.
  echo "## isolated re-run x3 of: $hardnames" >> $log
  failedpk=$(grep "^FAIL.github.com" $dst/suite.log | awk '{print $2}' | sed 's#github.com/ProtonMail/gluon#.#' | paste -sd' ')
  if (cd $WT && timeout 900 go test -mod=mod -vet=off -count=3 -run "^($hardnames)\$" $failedpk) >> $log 2>&1; then
    echo "isolated re-run passed 3/3: counted as load flake" | tee -a $dst/suite.log >> $log; hard=0
  fi
fi
okpk=$(grep -c "^ok" $dst/suite.log)
echo "RESULT without=$without build=$build with=$with ok_packages=$okpk hard_fail=$hard" >> $log
ok=false; if [ $without -eq 0 ] && [ $build -eq 0 ] && [ $with -ne 0 ] && [ $hard -eq 0 ] && [ $okpk -ge 16 ]; then ok=true; fi
python3 - "$p" "$v" "$pkgs" "$ok" "$without" "$with" "$hard" "$okpk" "$BASE" <<'PY'
import json,sys,os
p,v,pkgs,ok,without,withc,hard,okpk,base=sys.argv[1:]
d=f"/verif/seeded/{p}-{v}"
meta={}
old=d+"/meta.json"
if os.path.exists(old):
    try: meta=json.load(open(old))
    except Exception: meta={}
meta.update({"property":p,"variant":v,"breaks":p,"demo_packages":pkgs.split(),"confirmed":ok=="true",
 "ran":{"base":"/repo at "+base+" (newest commit whose files match the patch's pre-image)","demo_without_change_exit":int(without),"demo_with_change_exit":int(withc),
        "suite_ok_packages_with_change":int(okpk),"non_flaky_suite_failures_with_change":int(hard),
        "commands":["go test -run 'Seeded|Demo|TestC[0-9][0-9][a-d]' <demo packages> (without, then with patch.diff)","go build ./...",
                    "go test -mod=mod -vet=off -count=1 -timeout 25m -skip 'TestRemoteDeletionPool$' ./... (with patch.diff, demos removed)"]}})
meta.setdefault("needs_to_manifest","see notes.md (written by the independent sub-agent that produced the change)")
meta.setdefault("detected_by",None)
json.dump(meta,open(old,"w"),indent=1)
PY
echo "$p-$v: confirmed=$ok (without=$without build=$build with=$with ok_pkgs=$okpk hard=$hard)"
