#!/bin/bash
# trymut_all.sh [jobs]: every mutant under mutants/<Cxx>/*.diff must be reported by the check of ITS OWN property
# (one load per patch: verifcheck -all, then the VIOLATION lines are filtered by property).  Prints DETECTED / MISSED / SKIP.
set -u
export GOFLAGS=-mod=mod GOPROXY=off GOSUMDB=off GOTOOLCHAIN=local; unset GOWORK
J=${1:-6}
one() {
  m=$1; VERIF=/verif; p=$(basename $(dirname $m))
  WT=$(mktemp -d /tmp/verif-trymutall.XXXXXX)
  (cd /repo && git ls-files -z | xargs -0 tar -cf - 2>/dev/null) | tar -xf - -C "$WT"
  (cd "$WT" && git init -q . >/dev/null 2>&1)
  if ! git -C "$WT" apply "$m" 2>/dev/null; then echo "SKIP $p/$(basename $m) (does not apply)"; rm -rf "$WT"; return; fi
  out=$("$VERIF/bin/verifcheck" -all -repo "$WT" -verif "$VERIF" 2>&1)
  if grep -q "^VIOLATION property=$p " <<<"$out"; then echo "DETECTED $p/$(basename $m)"; else echo "MISSED $p/$(basename $m)"; fi
  rm -rf "$WT"
}
export -f one
ls /verif/mutants/C*/*.diff | xargs -P "$J" -I{} bash -c 'one {}'
