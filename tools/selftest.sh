#!/bin/bash
# Self-test of the rules: every patch under /verif/mutants/<property>/ breaks exactly one
# rule instance and still compiles; it is applied to a scratch worktree of /repo's current
# HEAD+working tree, the property's check is run against the scratch copy (no evidence
# written) and must report a VIOLATION.  Patches under /verif/equivalents/<property>/ are
# behaviour-preserving rewrites of the same constructs and must NOT be reported.  Patches that no longer apply are counted as
# skipped.  Usage: selftest.sh [property ...]   (default: all)
set -u
export GOFLAGS=-mod=mod GOPROXY=off GOSUMDB=off GOTOOLCHAIN=local; unset GOWORK
VERIF=$(cd "$(dirname "$0")/.." && pwd)
REPO=${REPO:-/repo}
WT=$(mktemp -d /tmp/verif-selftest.XXXXXX)
trap 'rm -rf "$WT"' EXIT
# copy of the current working tree (tracked files as they are on disk)
(cd "$REPO" && git ls-files -z | xargs -0 tar -cf - 2>/dev/null) | tar -xf - -C "$WT"
(cd "$WT" && git init -q . && git add -A >/dev/null 2>&1 && git -c user.email=v@v -c user.name=v commit -qm base >/dev/null)
props=("$@"); [ ${#props[@]} -eq 0 ] && props=($(ls "$VERIF/mutants"))
applied=0; detected=0; skipped=0; missed=()
for p in "${props[@]}"; do
  for m in "$VERIF/mutants/$p"/*.diff; do
    [ -f "$m" ] || continue
    if ! git -C "$WT" apply --check "$m" 2>/dev/null; then skipped=$((skipped+1)); echo "SKIP $p $(basename $m) (does not apply)"; continue; fi
    git -C "$WT" apply "$m"
    applied=$((applied+1))
    out=$("$VERIF/bin/verifcheck" -property "$p" -repo "$WT" -verif "$VERIF" -no-evidence 2>&1); rc=$?
    if [ $rc -eq 1 ] && grep -q "^VIOLATION property=$p" <<<"$out"; then
      detected=$((detected+1)); echo "DETECTED $p $(basename $m): $(grep -B1 '^VIOLATION' <<<"$out" | head -1 | cut -c1-200)"
    else
      missed+=("$p/$(basename $m)"); echo "MISSED $p $(basename $m) (rc=$rc) $(tail -2 <<<"$out" | tr '\n' ' ' | cut -c1-300)"
    fi
    git -C "$WT" checkout -q -- . ; git -C "$WT" clean -qfd
  done
done
# behaviour-preserving variants: /verif/equivalents/<property>/*.diff must stay silent
eq=0; falsealarms=()
for p in "${props[@]}"; do
  for m in "$VERIF/equivalents/$p"/*.diff; do
    [ -f "$m" ] || continue
    if ! git -C "$WT" apply --check "$m" 2>/dev/null; then skipped=$((skipped+1)); echo "SKIP-EQ $p $(basename $m) (does not apply)"; continue; fi
    git -C "$WT" apply "$m"; eq=$((eq+1))
    out=$("$VERIF/bin/verifcheck" -property "$p" -repo "$WT" -verif "$VERIF" -no-evidence 2>&1); rc=$?
    if [ $rc -eq 0 ]; then echo "SILENT $p $(basename $m)"; else falsealarms+=("$p/$(basename $m)"); echo "FALSE-ALARM $p $(basename $m) (rc=$rc) $(grep -B1 '^VIOLATION' <<<"$out" | head -1 | cut -c1-300)"; fi
    git -C "$WT" checkout -q -- . ; git -C "$WT" clean -qfd
  done
done
echo "selftest: equivalents=$eq false_alarms=${#falsealarms[@]} ${falsealarms[*]:-}"
echo "selftest: applied=$applied detected=$detected skipped=$skipped missed=${#missed[@]} ${missed[*]:-}"
[ ${#missed[@]} -eq 0 ] && [ ${#falsealarms[@]} -eq 0 ]
