#!/bin/bash
# mkmut2.sh <property> <name> <base refactoring patch> <file> <python-expr-on-s> : a mutant written ON TOP OF a refactoring
# (mutants/<property>/<name>.diff is the combined diff against /repo); checks that a generalised rule still fires in the new shape.
set -eu
export GOFLAGS=-mod=mod GOPROXY=off GOSUMDB=off GOTOOLCHAIN=local; unset GOWORK
prop=$1; name=$2; base=$(readlink -f "$3"); file=$4; expr=$5
WT=$(mktemp -d /tmp/verif-mk2.XXXX); trap 'rm -rf "$WT"' EXIT
(cd /repo && git ls-files -z | xargs -0 tar -cf - 2>/dev/null) | tar -xf - -C $WT
(cd $WT && git init -q . && git add -A >/dev/null 2>&1 && git -c user.email=v@v -c user.name=v commit -qm base >/dev/null)
git -C $WT apply "$base"
python3 - "$WT/$file" "$expr" <<'PY'
import sys,re
f,expr=sys.argv[1],sys.argv[2]
s=open(f).read()
t=eval(expr)
assert t!=s, "mutation did not change the file"
open(f,'w').write(t)
PY
(cd $WT && go build ./...)
(cd $WT && git diff) > /verif/mutants/$prop/$name.diff
echo "wrote mutants/$prop/$name.diff"
