#!/bin/bash
# store_seed.sh <P> <variant> <round> <srcdir> <first verdict> <rule added afterwards or -> : files a blind seed under /verif/seeded,
# adds it to the mutants of its property and appends a row to seeded/ROUND<round>.md
set -eu
p=$1; v=$2; round=$3; src=$4; fv=$5; rule=$6
d=/verif/seeded/$p-$v
mkdir -p $d; cp $src/*.diff $src/*_test.go $d/ 2>/dev/null || true; cp $src/notes.md $d/ 2>/dev/null || true
cp $d/patch.diff /verif/mutants/$p/seed-$v.diff
python3 - "$p" "$v" "$round" "$fv" "$rule" <<'PY'
import json,sys,subprocess
p,v,r,fv,rule=sys.argv[1:]
head=subprocess.run("git -C /repo rev-parse --short HEAD",shell=True,capture_output=True,text=True).stdout.strip()
m={"property":p,"variant":v,"breaks":p,"round":int(r),"first_verdict":fv,"rule_added_afterwards":None if rule=="-" else rule,
   "needs_to_manifest":"see notes.md (written by the independent sub-agent that produced the change)","confirmed":False,"written_against":head,"written_against_newest_matching_commit":head}
json.dump(m,open(f"/verif/seeded/{p}-{v}/meta.json","w"),indent=1)
PY
echo "| $p-$v | $fv | $( [ "$rule" = "-" ] && echo '(already reported)' || echo "$rule") |" >> /verif/seeded/ROUND$round.md
echo stored $p-$v
