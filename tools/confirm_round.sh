#!/bin/bash
# confirm_round.sh <variant-glob> [jobs] : confirm the stored seeds /verif/seeded/C*-<variant> against the commit
# recorded in meta.json (written_against_newest_matching_commit); uses the files already stored.
V=${1:-d}; J=${2:-2}
for d in /verif/seeded/C*-$V; do n=$(basename $d); p=${n%%-*}; v=${n#*-}
  [ "$(jq -r .confirmed $d/meta.json)" = true ] && continue
  b=$(jq -r '.written_against_newest_matching_commit // "HEAD"' $d/meta.json)
  echo "$p $v $b"; done | xargs -P $J -L 1 bash -c 'SEED_BASE=$2 /verif/tools/confirm_seed.sh $0 $1 /nonexistent'
