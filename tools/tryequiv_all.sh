#!/bin/bash
# tryequiv_all.sh [dir] [jobs]: every refactoring patch under <dir>/<Cxx>/*.diff against EVERY property check.
set -u
export GOFLAGS=-mod=mod GOPROXY=off GOSUMDB=off GOTOOLCHAIN=local; unset GOWORK
D=${1:-/tmp/equiv}; J=${2:-6}
one() {
  m=$1; VERIF=/verif
  WT=$(mktemp -d /tmp/verif-tryequivall.XXXXXX); trap 'rm -rf "$WT"' RETURN
  (cd /repo && git ls-files -z | xargs -0 tar -cf - 2>/dev/null) | tar -xf - -C "$WT"
  (cd "$WT" && git init -q . >/dev/null 2>&1)
  if ! git -C "$WT" apply "$m" 2>/dev/null; then echo "SKIP $(basename $(dirname $m))/$(basename $m) (does not apply)"; rm -rf "$WT"; return; fi
  if ! (cd "$WT" && go build ./... >/dev/null 2>&1); then echo "SKIP $(basename $(dirname $m))/$(basename $m) (does not build)"; rm -rf "$WT"; return; fi
  res=""
  for p in $($VERIF/bin/verifcheck -list); do
    out=$("$VERIF/bin/verifcheck" -property "$p" -repo "$WT" -verif "$VERIF" -no-evidence 2>&1); rc=$?
    if [ $rc -ne 0 ]; then res="$res $p[rc=$rc: $(grep -B1 '^VIOLATION' <<<"$out" | grep -v '^VIOLATION\|^--' | head -1 | cut -c1-220)]"; fi
  done
  if [ -z "$res" ]; then echo "SILENT $(basename $(dirname $m))/$(basename $m)"; else echo "ALARM $(basename $(dirname $m))/$(basename $m) ::$res"; fi
  rm -rf "$WT"
}
export -f one
ls "$D"/C*/*.diff | xargs -P "$J" -I{} bash -c 'one {}'
