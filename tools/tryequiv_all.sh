#!/bin/bash
# tryequiv_all.sh [dir] [jobs]: every refactoring patch under <dir>/<Cxx>/*.diff against EVERY property check (one load per patch: verifcheck -all).
set -u
export GOFLAGS=-mod=mod GOPROXY=off GOSUMDB=off GOTOOLCHAIN=local; unset GOWORK
D=${1:-/tmp/equiv}; J=${2:-6}
one() {
  m=$1; VERIF=/verif
  WT=$(mktemp -d /tmp/verif-tryequivall.XXXXXX); trap 'rm -rf "$WT"' RETURN
  (cd /repo && git ls-files -z | xargs -0 tar -cf - 2>/dev/null) | tar -xf - -C "$WT"
  (cd "$WT" && git init -q . >/dev/null 2>&1)
  if ! git -C "$WT" apply "$m" 2>/dev/null; then echo "SKIP $(basename $(dirname $m))/$(basename $m) (does not apply)"; rm -rf "$WT"; return; fi
  if ! (cd "$WT" && go build ./... >/dev/null 2>&1); then echo "SKIP $(basename $(dirname $m))/$(basename $m) (does not build)"; rm -rf "$WT"; return; fi
  res=""
  out=$("$VERIF/bin/verifcheck" -all -repo "$WT" -verif "$VERIF" 2>&1); rc=$?
  if [ $rc -ne 0 ]; then res=" [rc=$rc: $(grep -B1 '^VIOLATION\|^ERROR' <<<"$out" | grep -v '^VIOLATION\|^--' | head -3 | cut -c1-260 | tr '\n' ' ')]"; fi
  if [ -z "$res" ]; then echo "SILENT $(basename $(dirname $m))/$(basename $m)"; else echo "ALARM $(basename $(dirname $m))/$(basename $m) ::$res"; fi
  rm -rf "$WT"
}
export -f one
ls "$D"/C*/*.diff | xargs -P "$J" -I{} bash -c 'one {}'
